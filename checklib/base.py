"""The generic check procedure shared by all properties (DESIGN.md section 4)."""
import json, os, time
from . import core
from .core import log


class Violation:
    def __init__(self, kind, what, case=None, impl=None, model=None, oracle=None, failing_input=False,
                 extra=None):
        self.kind = kind            # proof | tie | oracle
        self.what = what            # theorem / correspondence name, or what failed
        self.case, self.impl, self.model, self.oracle = case, impl, model, oracle
        self.failing_input = failing_input
        self.extra = extra or {}

    def identity(self):
        return self.case if self.failing_input else self.what


class Prop:
    id = ""
    module = ""            # Lean module holding the property theorems
    bins = []              # harness binaries needed
    assumptions = []
    trusted_base = []
    rule = ""
    run_bin = None         # binary whose `run` mode evaluates a case line of this property
    allow_axiom_substrings = ()

    # --- to be provided per property -------------------------------------------------------
    def theorems(self):
        props = json.load(open(os.path.join(core.LEAN, "props.json")))
        return props[self.id]["theorems"]

    def nontrivial(self, case, tags):
        return True

    def tie(self, stats, tier, seed):
        raise NotImplementedError

    def search(self, tier, seed):
        """deeper oracle-only exploration of the implementation; returns Stats"""
        st = core.Stats()
        self.tie(st, "thorough", seed + 1)
        return st

    def bin_for(self, case):
        """the harness binary whose `run` mode evaluates this case line (by its first token)"""
        if not case or case.startswith("#"):
            return self.run_bin
        b = {"dec": "dec", "var": "dec", "addr": "addr", "rid": "rid", "vq": "vq", "stream": "stream",
             "net": "net", "node": "node", "udp": "udp"}.get(case.split(" ")[0])
        return b if b in self.bins else self.run_bin

    def shrink(self, case, still_bad):
        if self.run_bin is None or case.startswith("#"):
            return case
        head = {"stream": 4, "vq": 2, "net": 2, "node": 2, "udp": 2}.get(case.split(" ")[0], 1)
        return core.shrink_tokens(self.bin_for(case), case, head, still_bad, budget=60)

    def needs_confirmation(self, case, imp):
        """cases whose oracle rests on a timing assumption about this machine (logical time grids, paced peers,
        wall-clock bounds): a failure must reproduce when the same case is executed again"""
        if case.startswith("vq seq") or case.startswith("vq conc") or case.startswith("node early") or case.startswith("vq backlog"):
            return True
        if case.startswith("stream duplex"):
            return "timely=false" in imp   # only the 1 s bound failed
        if case.startswith("node stop"):
            return "after=0" in imp      # only the wall-clock bound failed
        return False

    def confirm(self, stats, tries=3):
        def reproduced(case, pred):
            for _ in range(tries):
                imp, oracle, model = core.eval_case(self.bin_for(case), case)
                if pred(imp, oracle, model):
                    return True
            return False
        keep = []
        budget = [12]

        def reproduced_b(case, pred):
            if budget[0] <= 0:
                return bool(keep)       # beyond the budget: kept only next to a confirmed failure
            budget[0] -= 1
            return reproduced(case, pred)
        for (case, imp, oracle) in stats.oracle_fail:
            if self.needs_confirmation(case, imp) and not reproduced_b(case, lambda i, o, m: "FAIL" in o):
                stats.notes.append("unreproduced timing anomaly (failed once, passed %d re-executions): %s -> %s" % (tries, case[:400], oracle[:200]))
                stats.tags["unreproduced-anomaly"] = stats.tags.get("unreproduced-anomaly", 0) + 1
            else:
                keep.append((case, imp, oracle))
        dropped = {c for (c, _, _) in stats.oracle_fail} - {c for (c, _, _) in keep}
        stats.oracle_fail[:] = keep
        keep2 = []
        for (case, imp, model) in stats.disagreements:
            if case in dropped:
                continue
            if (not case.startswith("#") and self.needs_confirmation(case, imp) and self.compare_possible()
                    and not reproduced_b(case, lambda i, o, m: i != m)):
                stats.notes.append("unreproduced disagreement: %s" % case[:400])
                continue
            keep2.append((case, imp, model))
        stats.disagreements[:] = keep2

    def known_match(self, entry, v):
        ident = entry.get("identity", {})
        return ident.get("case") is not None and ident.get("case") == v.case

    # --- generic procedure -------------------------------------------------------------------
    def check(self, tier, seed):
        t0 = time.time()
        pid = self.id
        violations = []
        thms = self.theorems()
        log("[%s] tier=%s seed=%d: building harness %s" % (pid, tier, seed, self.bins))
        ok, err = core.build_harness(sorted(set(self.bins + ["consts"])))
        harness_ok = ok
        if not ok:
            violations.append(Violation("tie", "harness does not build against the current tree", extra={"cargo": err}))
        consts = {}
        if harness_ok:
            ok, err, consts = core.gen_constants()
            if not ok:
                violations.append(Violation("tie", "constant dump failed", extra={"err": err}))
        log("[%s] lake build %s" % (pid, self.module))
        ok_model, out = core.lake_build(["mio-driver"])
        ok_proof, out2 = core.lake_build([self.module])
        audit_res, scan = {}, []
        if ok_proof:
            audit_res, raw = core.audit(self.module, thms, self.allow_axiom_substrings)
            scan = core.textual_scan()
        else:
            log(out2[-3000:])
            audit_res = {t: {"axioms": [], "ok": False, "why": "module does not build"} for t in thms}
        discharged = [t for t in thms if audit_res[t]["ok"]] if not scan else []
        for t in thms:
            if not audit_res[t]["ok"]:
                violations.append(Violation("proof", t, extra={"why": audit_res[t]["why"], "build": out2[-1500:] if not ok_proof else ""}))
        for h in scan:
            violations.append(Violation("proof", "banned token in Lean sources: " + h))
        lc_ok = None
        if tier == "thorough" and ok_proof:
            lc_ok, lc_out = core.leanchecker(self.module)
            if not lc_ok:
                violations.append(Violation("proof", "leanchecker rejects " + self.module, extra={"out": lc_out}))
        # tie
        stats = core.Stats()
        if harness_ok:
            log("[%s] correspondence run" % pid)
            self.compare = ok_model
            if not ok_model:
                violations.append(Violation("tie", "model/driver does not build", extra={"out": out[-1500:]}))
            self.tie(stats, tier, seed)
            self.confirm(stats)
            for (case, imp, oracle) in stats.oracle_fail:
                violations.append(Violation("oracle", "direct oracle fails on the implementation", case, imp, None, oracle, True))
            failing_cases = {c for (c, _, _) in stats.oracle_fail}
            for (case, imp, model) in stats.disagreements:
                if case not in failing_cases:
                    violations.append(Violation("tie", "model and implementation disagree", case, imp, model))
        # search when something broke but no failing input is known yet
        searched = 0
        if violations and not any(v.failing_input for v in violations) and harness_ok:
            log("[%s] an obligation or the correspondence broke: searching the implementation for a failing input" % pid)
            self.compare = False
            st2 = self.search(tier, seed)
            searched = st2.evaluations
            for (case, imp, oracle) in st2.oracle_fail[:3]:
                violations.append(Violation("oracle", "direct oracle fails on the implementation (search)", case, imp, None, oracle, True))
        # shrink failing inputs / disagreements (a few of each)
        final = self.consolidate(violations)
        known = core.load_known()
        exit_code = 0
        n = 0
        for v in final:
            hit = None
            for e in known:
                if e.get("status") == "known" and e.get("property") == pid and self.known_match(e, v):
                    hit = e
            if hit:
                print("KNOWN-FINDING: property=%s %s" % (pid, hit.get("what", "")))
                continue
            n += 1
            payload = {"property": pid, "kind": v.kind, "what": v.what, "case": v.case, "impl": v.impl,
                       "model": v.model, "oracle": v.oracle, "seed": seed, "tier": tier,
                       "run_bin": self.run_bin, "extra": v.extra,
                       "failing_input_found": v.failing_input,
                       "broken": [x.what for x in violations if x.kind in ("proof", "tie")][:20]}
            path = core.write_replay(pid, seed, n, payload)
            if v.failing_input:
                print("VIOLATION property=%s replay=%s" % (pid, path))
            else:
                print("VIOLATION property=%s replay=%s no-failing-input-found" % (pid, path))
            exit_code = 1
        wall = time.time() - t0
        cov = {
            "obligations": len(thms), "discharged": len(discharged),
            "checker_cmd": "cd lean && lake build %s mio-driver && lake env lean <#print axioms of the %d theorems>%s"
                           % (self.module, len(thms), " && lake env leanchecker " + self.module if tier == "thorough" else ""),
            "trusted_base": self.trusted_base + ["axioms used: " + ", ".join(sorted({a for t in thms for a in audit_res[t]["axioms"]}) or ["none"])],
            "theorems": {t: audit_res[t] for t in thms},
            "evaluations": stats.evaluations, "distinct_nontrivial": len(stats.nontrivial),
            "rule": self.rule, "samples": stats.samples or [{"obligations": thms[:3]}],
            "traces_validated_against_impl": stats.evaluations,
            "input_distribution": dict(sorted(stats.tags.items())),
            "model_impl_disagreements": len(stats.disagreements),
            "oracle_failures": len(stats.oracle_fail),
            "search_evaluations": searched,
            "generated_constants": consts,
            "leanchecker": lc_ok,
            "notes": stats.notes,
        }
        core.write_evidence(pid, tier, seed, cov, self.assumptions, wall, exit_code and n or 0)
        log("[%s] obligations %d/%d discharged; %d cases (%d distinct non-trivial); %d disagreements; %d oracle failures; %.1fs"
            % (pid, len(discharged), len(thms), stats.evaluations, len(stats.nontrivial), len(stats.disagreements), len(stats.oracle_fail), wall))
        return exit_code

    def consolidate(self, violations):
        """shrink and deduplicate: at most a handful of reports per run"""
        out = []
        failing = [v for v in violations if v.failing_input]
        seen = set()
        for v in failing[:3]:
            if self.run_bin and v.case and not v.case.startswith("#") and self.reexecutable(v.case):
                orig = (v.case, v.impl, v.oracle, v.model)
                v.case = self.shrink(v.case, lambda imp, oracle, model: "FAIL" in oracle)
                v.impl, v.oracle, v.model = core.eval_case(self.bin_for(v.case), v.case)
                if "FAIL" not in (v.oracle or ""):
                    # the shrunk case does not fail when run again: report the case as first observed
                    v.extra = dict(v.extra, shrunk_case_not_failing=v.case)
                    v.case, v.impl, v.oracle, v.model = orig
            if v.case not in seen:
                seen.add(v.case)
                out.append(v)
        if failing:
            return out
        # no failing input: one report naming everything that no longer checks
        dis = [v for v in violations if v.kind == "tie" and v.case]
        if dis:
            v = dis[0]
            if self.run_bin and not v.case.startswith("#") and self.compare_possible() and self.reexecutable(v.case):
                v.case = self.shrink(v.case, lambda imp, oracle, model: imp != model)
                v.impl, v.oracle, v.model = core.eval_case(self.bin_for(v.case), v.case)
            out.append(v)
        others = [v for v in violations if not v.case]
        if others:
            v = others[0]
            v.extra = dict(v.extra, all_broken=[x.what for x in others])
            out.append(v)
        return out

    def reexecutable(self, case):
        """recorded many-thread histories cannot be re-executed deterministically: kept as recorded"""
        return not (case.startswith("vq hist") or case.startswith("vq sched") or case.startswith("net hist")
                    or case.startswith("stream mt"))

    def compare_possible(self):
        return os.path.exists(core.DRIVER)

    def replay(self, path):
        r = json.load(open(path))
        case = r.get("case")
        log("replay of %s: %s" % (path, r.get("what")))
        if not case or case.startswith("#") or not self.run_bin:
            log("no executable case recorded; broken obligations: %s" % r.get("broken"))
            return 1
        ok, err = core.build_harness(sorted(set(self.bins + ["consts"])))
        if not ok:
            log(err)
            return 1
        core.gen_constants()
        core.lake_build(["mio-driver"])
        imp, oracle, model = core.eval_case(self.bin_for(case), case)
        log("case  : " + case[:2000])
        log("impl  : " + imp[:2000])
        log("model : " + model[:2000])
        log("oracle: " + oracle)
        bad = "FAIL" in oracle or imp != model
        if bad:
            print("VIOLATION property=%s replay=%s" % (self.id, path))
        return 1 if bad else 0
