"""Per-property configuration of ./check."""
from . import core
from .base import Prop

KERNEL = "Lean 4.33.0 kernel"
TIE = "correspondence harness (Rust generators, canonicalisation, line diff) and the Lean driver's parsing"


class C02(Prop):
    id = "C02"
    module = "MioModel.Props.C02"
    bins = ["dec"]
    run_bin = "dec"
    rule = ("cases = well-formed frame streams (0-6 messages; lengths on the prefix-width and read-buffer "
            "boundaries; contents 00/80/ff/prefix-lookalike/random) cut exhaustively (all 2^(n-1) cuts of every "
            "stream up to the exhaustive bound), by every subset of positions around each prefix, byte per byte, "
            "or randomly; plus encode/decode of boundary and random u64 values. non-trivial = a cut strictly "
            "inside a multi-byte prefix (tag pfxcut) or >=2 frames completed by one chunk that started inside "
            "a frame (tag slowmulti); distinct = by case line")
    trusted_base = [KERNEL, TIE,
                    "model of integer-encoding 3.0.4 u64 varint written by hand (MioModel/Varint.lean), tied by `var` cases",
                    "model of util::encoding::Decoder written by hand (MioModel/Decoder.lean), tied by `dec` cases"]
    assumptions = ["usize is 64 bit (message lengths < 2^64)",
                   "payload contents above 4 MiB are covered by the theorem, not by the differential run"]

    def nontrivial(self, case, tags):
        return "pfxcut" in tags or "slowmulti" in tags

    def tie(self, stats, tier, seed):
        cmp = getattr(self, "compare", True)
        thorough = tier == "thorough"
        core.tie_run(stats, "dec", ["gen-exh", 12 if thorough else 10], self.nontrivial, cmp)
        core.tie_run(stats, "dec", ["gen-wf", seed, 200000 if thorough else 12000], self.nontrivial, cmp)
        core.tie_run(stats, "dec", ["gen-wf", seed + 7, 300 if thorough else 40, "big"], self.nontrivial, cmp)
        core.tie_run(stats, "dec", ["gen-var", seed, 100000 if thorough else 5000], self.nontrivial, cmp)


class C17(Prop):
    id = "C17"
    module = "MioModel.Props.C17"
    bins = ["dec"]
    run_bin = "dec"
    rule = ("cases = arbitrary byte strings fed to a fresh Decoder in arbitrary chunkings: random bytes, "
            "non-canonical varints, over-long prefixes (9-14 continuation bytes), huge declared lengths, "
            "well-formed streams mutated by bit flips/insertions/deletions/truncation; cuts byte-per-byte, "
            "around the prefix, random. non-trivial = malformed (not a concatenation of canonical frames) "
            "and split into >= 2 chunks; distinct = by case line")
    trusted_base = [KERNEL, TIE, "model of util::encoding::Decoder written by hand (MioModel/Decoder.lean)"]
    assumptions = ["checked-arithmetic (overflow-checks=on) semantics, the profile the repository's tests run under",
                   "tungstenite's own parsing of hostile handshakes/frames is exercised, not modelled"]

    def nontrivial(self, case, tags):
        return tags not in ("", "corpus") and case.count(" ") >= 2

    def tie(self, stats, tier, seed):
        cmp = getattr(self, "compare", True)
        thorough = tier == "thorough"
        core.tie_run(stats, "dec", ["gen-mal", seed, 400000 if thorough else 30000], self.nontrivial, cmp)


class C19(Prop):
    id = "C19"
    module = "MioModel.Props.C19"
    bins = ["addr"]
    run_bin = "addr"
    rule = ("cases = grammar-based strings (valid IPv4/IPv6 socket addresses, host names, URLs, near-misses: "
            "missing port, port 65536, octet 256, leading zeros, missing brackets, empty, whitespace, non-ASCII, "
            "random over an address alphabet) with Rust's own parse::<SocketAddr>() as the oracle column, plus "
            "typed conversions from SocketAddr/V4/V6/tuples. non-trivial = every case (both classes are "
            "counted in input_distribution: parses/text); distinct = by input string")
    trusted_base = [KERNEL, TIE, "str::parse::<SocketAddr>() and Display for SocketAddr are parameters of the model (theorems hold for every parser/printer)"]
    assumptions = ["std's SocketAddr parser/printer are not verified; the model is parametric in them"]

    def tie(self, stats, tier, seed):
        cmp = getattr(self, "compare", True)
        core.tie_run(stats, "addr", ["gen", seed, 200000 if tier == "thorough" else 20000], self.nontrivial, cmp)


class C07(Prop):
    id = "C07"
    module = "MioModel.Props.C07"
    bins = ["vq"]
    run_bin = "vq"
    rule = ("cases = single-threaded call sequences (3-12 calls: send, send_with_priority, send_with_timer with "
            "durations 0/1/2/3 ticks/far future, cancel_timer, try_receive, receive_timeout(0/1/2 ticks), receive, "
            "gaps) executed on a real EventReceiver on a logical time grid (sender calls at phase 1, receiver "
            "calls at phase 3 of a 4 ms tick, so the expected result is unique); the recorded trace is validated "
            "against the Lean model, runs that miss their slot are repeated, never reported. thorough adds every "
            "sequence up to length 5 over a 6-letter alphabet. non-trivial = a pending timer coexists with a queued "
            "plain/priority event at a receive (tag timer+queued) or a blocking call had to wait (tag waited); "
            "distinct = by recorded trace")
    trusted_base = [KERNEL, TIE, "model of events.rs written by hand (MioModel/EventQueue.lean), sequential semantics",
                    "crossbeam-channel: unbounded FIFO channels, select! returns only when an operation is ready, at(t) ready from t on, default(d) not before d (assumed)"]
    assumptions = ["the queue is quiescent at each receive (single thread)", "Instant::now() is monotone",
                   "timing: logical time grid with 1 ms margins; late runs are inconclusive and re-run"]

    def nontrivial(self, case, tags):
        return "timer+queued" in tags or "waited" in tags

    def tie(self, stats, tier, seed):
        cmp = getattr(self, "compare", True)
        core.tie_run(stats, "vq", ["gen-seq", seed, 6000 if tier == "thorough" else 700], self.nontrivial, cmp)
        if tier == "thorough":
            core.tie_run(stats, "vq", ["gen-seq-exh", 5], self.nontrivial, cmp)

    def search(self, tier, seed):
        st = core.Stats()
        core.tie_run(st, "vq", ["gen-seq-exh", 4], self.nontrivial, False)
        core.tie_run(st, "vq", ["gen-seq", seed + 1, 1500], self.nontrivial, False)
        return st


class C14(Prop):
    id = "C14"
    module = "MioModel.Props.C14"
    bins = ["rid"]
    run_bin = "rid"
    rule = ("cases = structured raw 64-bit values (single bits, complements, field boundaries, random widths) "
            "through ResourceId::from(raw) + accessors + Display and through the poll-token conversions; "
            "ResourceId::new on in-range and out-of-range fields (debug_assert = panic); generator runs from "
            "arbitrary counters incl. the 2^56 edge; plus one live-network row (#table) checking the transport "
            "table and that listen/connect on every transport hand out ids with that transport's adapter id, the "
            "right type and consecutive base values. non-trivial = raw value with bits in >= 2 of the 3 fields, "
            "or an edge case (tags guard/wrap/edge); distinct = by case line")
    trusted_base = [KERNEL, TIE, "hooks verif_new / verif_token_of / verif_id_of_token / ResourceIdGenerator re-export (feature verif-hooks, add-only wrappers around the private functions)",
                    "model of resource_id.rs / poll.rs token / loader.rs table written by hand (MioModel/ResourceId.lean)"]
    assumptions = ["usize is 64 bit", "fewer than 2^55 registrations per registry (beyond it the token shift drops a bit; stated in the theorems)",
                   "history-level parts of C14 (stale endpoints, event attribution) are proved on the network model M5"]

    def nontrivial(self, case, tags):
        if any(t in tags for t in ("guard", "wrap", "edge", "table")):
            return True
        w = case.split(" ")
        if len(w) >= 3 and w[1] in ("acc", "tok") and w[2].isdigit():
            raw = int(w[2])
            return sum(1 for f in (raw & 0x7f, raw & 0x80, raw >> 8) if f) >= 2
        return w[1] in ("mk", "gen") if len(w) > 1 else False

    def tie(self, stats, tier, seed):
        cmp = getattr(self, "compare", True)
        core.tie_run(stats, "rid", ["gen", seed, 300000 if tier == "thorough" else 20000], self.nontrivial, cmp)


PROPS = {p.id: p() for p in [C02, C07, C14, C17, C19]}
