"""Per-property configuration of ./check."""
from . import core
from .base import Prop

KERNEL = "Lean 4.33.0 kernel"
TIE = "correspondence harness (Rust generators, canonicalisation, line diff) and the Lean driver's parsing"


class C02(Prop):
    id = "C02"
    module = "MioModel.Props.C02"
    bins = ["dec"]
    run_bin = "dec"
    rule = ("cases = well-formed frame streams (0-6 messages; lengths on the prefix-width and read-buffer "
            "boundaries; contents 00/80/ff/prefix-lookalike/random) cut exhaustively (all 2^(n-1) cuts of every "
            "stream up to the exhaustive bound), by every subset of positions around each prefix, byte per byte, "
            "or randomly; plus encode/decode of boundary and random u64 values. non-trivial = a cut strictly "
            "inside a multi-byte prefix (tag pfxcut) or >=2 frames completed by one chunk that started inside "
            "a frame (tag slowmulti); distinct = by case line")
    trusted_base = [KERNEL, TIE,
                    "model of integer-encoding 3.0.4 u64 varint written by hand (MioModel/Varint.lean), tied by `var` cases",
                    "model of util::encoding::Decoder written by hand (MioModel/Decoder.lean), tied by `dec` cases"]
    assumptions = ["usize is 64 bit (message lengths < 2^64)",
                   "payload contents above 4 MiB are covered by the theorem, not by the differential run"]

    def nontrivial(self, case, tags):
        return "pfxcut" in tags or "slowmulti" in tags

    def tie(self, stats, tier, seed):
        cmp = getattr(self, "compare", True)
        thorough = tier == "thorough"
        core.tie_run(stats, "dec", ["gen-exh", 12 if thorough else 10], self.nontrivial, cmp)
        core.tie_run(stats, "dec", ["gen-wf", seed, 200000 if thorough else 12000], self.nontrivial, cmp)
        core.tie_run(stats, "dec", ["gen-wf", seed + 7, 300 if thorough else 40, "big"], self.nontrivial, cmp)
        core.tie_run(stats, "dec", ["gen-var", seed, 100000 if thorough else 5000], self.nontrivial, cmp)


class C17(Prop):
    id = "C17"
    module = "MioModel.Props.C17"
    bins = ["dec"]
    run_bin = "dec"
    rule = ("cases = arbitrary byte strings fed to a fresh Decoder in arbitrary chunkings: random bytes, "
            "non-canonical varints, over-long prefixes (9-14 continuation bytes), huge declared lengths, "
            "well-formed streams mutated by bit flips/insertions/deletions/truncation; cuts byte-per-byte, "
            "around the prefix, random. non-trivial = malformed (not a concatenation of canonical frames) "
            "and split into >= 2 chunks; distinct = by case line")
    trusted_base = [KERNEL, TIE, "model of util::encoding::Decoder written by hand (MioModel/Decoder.lean)"]
    assumptions = ["checked-arithmetic (overflow-checks=on) semantics, the profile the repository's tests run under",
                   "tungstenite's own parsing of hostile handshakes/frames is exercised, not modelled"]

    def nontrivial(self, case, tags):
        return tags not in ("", "corpus") and case.count(" ") >= 2

    def tie(self, stats, tier, seed):
        cmp = getattr(self, "compare", True)
        thorough = tier == "thorough"
        core.tie_run(stats, "dec", ["gen-mal", seed, 400000 if thorough else 30000], self.nontrivial, cmp)


class C19(Prop):
    id = "C19"
    module = "MioModel.Props.C19"
    bins = ["addr"]
    run_bin = "addr"
    rule = ("cases = grammar-based strings (valid IPv4/IPv6 socket addresses, host names, URLs, near-misses: "
            "missing port, port 65536, octet 256, leading zeros, missing brackets, empty, whitespace, non-ASCII, "
            "random over an address alphabet) with Rust's own parse::<SocketAddr>() as the oracle column, plus "
            "typed conversions from SocketAddr/V4/V6/tuples. non-trivial = every case (both classes are "
            "counted in input_distribution: parses/text); distinct = by input string")
    trusted_base = [KERNEL, TIE, "str::parse::<SocketAddr>() and Display for SocketAddr are parameters of the model (theorems hold for every parser/printer)"]
    assumptions = ["std's SocketAddr parser/printer are not verified; the model is parametric in them"]

    def tie(self, stats, tier, seed):
        cmp = getattr(self, "compare", True)
        core.tie_run(stats, "addr", ["gen", seed, 200000 if tier == "thorough" else 20000], self.nontrivial, cmp)


PROPS = {p.id: p() for p in [C02, C17, C19]}
