"""Per-property configuration of ./check."""
from . import core
from .base import Prop

KERNEL = "Lean 4.33.0 kernel"
TIE = "correspondence harness (Rust generators, canonicalisation, line diff) and the Lean driver's parsing"


class C02(Prop):
    id = "C02"
    module = "MioModel.Props.C02"
    bins = ["dec"]
    run_bin = "dec"
    rule = ("cases = well-formed frame streams (0-6 messages; lengths on the prefix-width and read-buffer "
            "boundaries; contents 00/80/ff/prefix-lookalike/random) cut exhaustively (all 2^(n-1) cuts of every "
            "stream up to the exhaustive bound), by every subset of positions around each prefix, byte per byte, "
            "or randomly; plus encode/decode of boundary and random u64 values. non-trivial = a cut strictly "
            "inside a multi-byte prefix (tag pfxcut) or >=2 frames completed by one chunk that started inside "
            "a frame (tag slowmulti); distinct = by case line")
    trusted_base = [KERNEL, TIE,
                    "model of integer-encoding 3.0.4 u64 varint written by hand (MioModel/Varint.lean), tied by `var` cases",
                    "model of util::encoding::Decoder written by hand (MioModel/Decoder.lean), tied by `dec` cases"]
    assumptions = ["usize is 64 bit (message lengths < 2^64)",
                   "payload contents above 4 MiB are covered by the theorem, not by the differential run"]

    def nontrivial(self, case, tags):
        return "pfxcut" in tags or "slowmulti" in tags

    def tie(self, stats, tier, seed):
        cmp = getattr(self, "compare", True)
        thorough = tier == "thorough"
        core.tie_run(stats, "dec", ["gen-exh", 12 if thorough else 10], self.nontrivial, cmp)
        core.tie_run(stats, "dec", ["gen-wf", seed, 200000 if thorough else 12000], self.nontrivial, cmp)
        core.tie_run(stats, "dec", ["gen-wf", seed + 7, 300 if thorough else 40, "big"], self.nontrivial, cmp)
        core.tie_run(stats, "dec", ["gen-var", seed, 100000 if thorough else 5000], self.nontrivial, cmp)


class C17(Prop):
    id = "C17"
    module = "MioModel.Props.C17"
    bins = ["dec", "net"]
    run_bin = "dec"
    rule = ("cases = arbitrary byte strings fed to a fresh Decoder in arbitrary chunkings: random bytes, "
            "non-canonical varints, over-long prefixes (9-14 continuation bytes), huge declared lengths, "
            "well-formed streams mutated by bit flips/insertions/deletions/truncation; cuts byte-per-byte, "
            "around the prefix, random. non-trivial = malformed (not a concatenation of canonical frames) "
            "and split into >= 2 chunks; distinct = by case line")
    trusted_base = [KERNEL, TIE, "model of util::encoding::Decoder written by hand (MioModel/Decoder.lean)"]
    assumptions = ["checked-arithmetic (overflow-checks=on) semantics, the profile the repository's tests run under",
                   "tungstenite's own parsing of hostile handshakes/frames is exercised, not modelled"]

    def nontrivial(self, case, tags):
        return tags not in ("", "corpus") and case.count(" ") >= 2

    def tie(self, stats, tier, seed):
        cmp = getattr(self, "compare", True)
        thorough = tier == "thorough"
        core.tie_run(stats, "dec", ["gen-mal", seed, 400000 if thorough else 30000], self.nontrivial, cmp)
        core.tie_run(stats, "net", ["gen", seed + 90, 300 if thorough else 36], lambda c, t: "refused" in t or "disconnected" in t, cmp)
        # a peer that fills the node's descriptor table with connections: accept() keeps failing; the other
        # connections of the node must still be served and the node must still stop
        core.tie_run(stats, "net", ["gen-emfile"], lambda c, t: True, cmp)


class C19(Prop):
    id = "C19"
    module = "MioModel.Props.C19"
    bins = ["addr"]
    run_bin = "addr"
    rule = ("cases = grammar-based strings (valid IPv4/IPv6 socket addresses, host names, URLs, near-misses: "
            "missing port, port 65536, octet 256, leading zeros, missing brackets, empty, whitespace, non-ASCII, "
            "random over an address alphabet) with Rust's own parse::<SocketAddr>() as the oracle column, plus "
            "typed conversions from SocketAddr/V4/V6/tuples. non-trivial = every case (both classes are "
            "counted in input_distribution: parses/text); distinct = by input string")
    trusted_base = [KERNEL, TIE, "str::parse::<SocketAddr>() and Display for SocketAddr are parameters of the model (theorems hold for every parser/printer)"]
    assumptions = ["std's SocketAddr parser/printer are not verified; the model is parametric in them"]

    def tie(self, stats, tier, seed):
        cmp = getattr(self, "compare", True)
        core.tie_run(stats, "addr", ["gen", seed, 200000 if tier == "thorough" else 20000], self.nontrivial, cmp)


class C07(Prop):
    id = "C07"
    module = "MioModel.Props.C07"
    bins = ["vq"]
    run_bin = "vq"
    rule = ("cases = single-threaded call sequences (3-12 calls: send, send_with_priority, send_with_timer with "
            "durations 0/1/2/3 ticks/far future, cancel_timer, try_receive, receive_timeout(0/1/2 ticks), receive, "
            "gaps) executed on a real EventReceiver on a logical time grid (sender calls at phase 1, receiver "
            "calls at phase 3 of a 4 ms tick, so the expected result is unique); the recorded trace is validated "
            "against the Lean model, runs that miss their slot are repeated, never reported. thorough adds every "
            "sequence up to length 5 over a 6-letter alphabet. non-trivial = a pending timer coexists with a queued "
            "plain/priority event at a receive (tag timer+queued) or a blocking call had to wait (tag waited); "
            "distinct = by recorded trace")
    trusted_base = [KERNEL, TIE, "model of events.rs written by hand (MioModel/EventQueue.lean), sequential semantics",
                    "crossbeam-channel: unbounded FIFO channels, select! returns only when an operation is ready, at(t) ready from t on, default(d) not before d (assumed)"]
    assumptions = ["the queue is quiescent at each receive (single thread)", "Instant::now() is monotone",
                   "timing: logical time grid with 1 ms margins; late runs are inconclusive and re-run"]

    def nontrivial(self, case, tags):
        return "timer+queued" in tags or "waited" in tags

    def tie(self, stats, tier, seed):
        cmp = getattr(self, "compare", True)
        core.tie_run(stats, "vq", ["gen-seq", seed, 6000 if tier == "thorough" else 700], self.nontrivial, cmp)
        core.tie_run(stats, "vq", ["gen-backlog"], self.nontrivial, cmp)
        # "an expired timer" is exact: receives a fraction of a millisecond before a deadline must not see it
        core.tie_run(stats, "vq", ["gen-early", 1200 if tier == "thorough" else 240], self.nontrivial, cmp)
        if tier == "thorough":
            core.tie_run(stats, "vq", ["gen-seq-exh", 5], self.nontrivial, cmp)

    def search(self, tier, seed):
        st = core.Stats()
        core.tie_run(st, "vq", ["gen-seq-exh", 4], self.nontrivial, False)
        core.tie_run(st, "vq", ["gen-seq", seed + 1, 1500], self.nontrivial, False)
        return st


STREAM_TB = [KERNEL, TIE, "model of the adapters' send/receive loops written by hand (MioModel/Stream.lean) over an abstract non-blocking socket",
             "kernel TCP: reliable FIFO byte stream; non-blocking read returns 1..min(cap, available) bytes, WouldBlock only when nothing is readable, 0 only after FIN; write accepts at most what it is given (assumed)",
             "mio/epoll: an edge-triggered read event is delivered after data arrives that was not yet consumed (assumed; monitored by the silence-then-deadline oracle)",
             "tungstenite 0.26: ideal message codec with read-ahead (assumed); message-io's own FramedTcp decoder is M1 (proved)"]
STREAM_ASSUME = ["loopback only", "bounded-time delivery is proved down to 'nothing is left that only a new poll event could release'; the 4 s deadline after the last send (followed by silence) monitors the rest",
                 "payload contents of generated messages are header + fill byte (long runs), sizes cover the prefix-width and read-buffer boundaries"]


class C01(Prop):
    id = "C01"
    module = "MioModel.Props.C01"
    bins = ["stream", "node"]
    run_bin = "stream"
    rule = ("cases = loopback connections over FramedTcp and Ws: peers {message-io node, raw std TcpStream writer with "
            "adversarial write boundaries in and around every prefix / raw reader, stock tungstenite client and server incl. "
            "fragmented messages} x direction {connector->acceptor, acceptor->connector} x 1-8 sizes from {0,1,127,128,16383,"
            "16384,65534,65535,65536,2^21-1,2^21,2^21+1, random} x burst shape {back-to-back, per message, 2 ms spacing, "
            "adversarial}, always followed by silence and a 4 s delivery deadline; the received sequence is compared with "
            "the model (send loop with partial writes -> wire -> cut as written -> receive loop -> decoder). non-trivial = "
            "burst of >= 3 messages back to back (tag burst3) or a size on a prefix/read-buffer boundary (tag boundary); "
            "distinct = by case line + scenario tags")
    trusted_base = STREAM_TB
    assumptions = STREAM_ASSUME

    def nontrivial(self, case, tags):
        return "burst3" in tags or "boundary" in tags

    def tie(self, stats, tier, seed):
        cmp = getattr(self, "compare", True)
        th = tier == "thorough"
        core.tie_run(stats, "stream", ["gen-e2e", seed, 400 if th else 60, "FW"], self.nontrivial, cmp)
        # the declared WebSocket maximum (and 16 MiB + 1, above the WS library's default frame limit), both directions: delivered intact
        core.tie_run(stats, "stream", ["gen-sizes", tier, "W"], lambda c, t: True, cmp)
        # two senders on one endpoint (the send lock): the per-connection sequence is an interleaving of whole messages
        core.tie_run(stats, "stream", ["gen-mt", seed + 3, 2, "FW"], lambda c, t: True, cmp)
        # a keepalive configuration the OS rejects, on either side: the connection works all the same
        core.tie_run(stats, "stream", ["gen-badka", "F"], lambda c, t: True, cmp)
        core.tie_run(stats, "stream", ["gen-slowreader", "F"], lambda c, t: True, cmp)
        # a WebSocket acceptor that greets right behind its handshake answer
        core.tie_run(stats, "stream", ["gen-earlyws"], lambda c, t: True, cmp)
        # through the node layer: messages that arrive before the listener call keep their order
        core.tie_run(stats, "node", ["gen-early", seed + 9, 2], lambda c, t: True, cmp)
        if th:
            core.tie_run(stats, "stream", ["gen-e2e", seed + 1, 40, "FW", "big"], self.nontrivial, cmp)

    def search(self, tier, seed):
        st = core.Stats()
        core.tie_run(st, "stream", ["gen-e2e", seed + 2, 150, "FW"], self.nontrivial, False)
        return st


class C11(Prop):
    id = "C11"
    module = "MioModel.Props.C11"
    bins = ["stream", "node"]
    run_bin = "stream"
    rule = ("cases = loopback Tcp connections: node<->node, raw writer->node, node->raw reader, both directions, buffer "
            "size sequences from 0 bytes to several hundred KiB (thorough: MiB) around the 65535-byte read buffer, burst / "
            "spaced; compared by concatenation (length + hash) and by the chunk bounds (non-empty, <= INPUT_BUFFER_SIZE). "
            "non-trivial = a buffer on the read-buffer boundary or a burst (tags boundary, burst3); distinct = by case line")
    trusted_base = STREAM_TB
    assumptions = STREAM_ASSUME

    def nontrivial(self, case, tags):
        return "burst3" in tags or "boundary" in tags

    def tie(self, stats, tier, seed):
        cmp = getattr(self, "compare", True)
        th = tier == "thorough"
        core.tie_run(stats, "stream", ["gen-e2e", seed + 4, 300 if th else 60, "T"], self.nontrivial, cmp)
        # through the node layer: chunks that arrive before for_each / for_each_async / enqueue is called
        core.tie_run(stats, "node", ["gen-tcp"], self.nontrivial, cmp)
        # a multi-MiB send() to a reader that stalls for seconds (the send loop must neither give up nor lose
        # its place), with small buffers travelling the other way meanwhile
        core.tie_run(stats, "stream", ["gen-duplex", "T", 8000 if th else 3000], lambda c, t: True, cmp)
        core.tie_run(stats, "stream", ["gen-badka", "T"], lambda c, t: True, cmp)
        # a slow reader and a silent peer: the read loop stops only when the socket is drained
        core.tie_run(stats, "stream", ["gen-slowreader", "T"], lambda c, t: True, cmp)
        # pieces of the stream that arrive while a long signal callback runs wait for it; none is dropped
        core.tie_run(stats, "node", ["gen-sparse"], lambda c, t: True, cmp)
        if th:
            core.tie_run(stats, "stream", ["gen-e2e", seed + 5, 40, "T", "big"], self.nontrivial, cmp)

    def search(self, tier, seed):
        st = core.Stats()
        core.tie_run(st, "stream", ["gen-e2e", seed + 6, 150, "T"], self.nontrivial, False)
        return st


class C10(Prop):
    id = "C10"
    module = "MioModel.Props.C10"
    bins = ["stream"]
    run_bin = "stream"
    rule = ("cases = 2/4/8 threads behind a barrier calling send() on one endpoint (FramedTcp, Ws, Udp), self-describing "
            "payloads (thread, sequence, checksum) of 12 B .. 300 KB (several socket buffers, so writes go partial and hit "
            "WouldBlock); the receiver's arrival order must be an interleaving of the per-thread sequences with every "
            "payload intact; checked by the direct oracle and by the driver's history predicate. non-trivial = arrival order "
            "interleaves threads (tag interleaved); distinct = by recorded arrival order")
    trusted_base = STREAM_TB + ["std::sync::Mutex: mutual exclusion (the send lock / the Ws state mutex) (assumed)"]
    assumptions = STREAM_ASSUME + ["UDP loss on a loaded loopback is inconclusive (tag udp-loss); corruption, duplication and reordering are not",
                                    "sends from inside the callback are exercised through the node threads of the sending node"]

    def nontrivial(self, case, tags):
        return "interleaved" in tags

    def tie(self, stats, tier, seed):
        cmp = getattr(self, "compare", True)
        core.tie_run(stats, "stream", ["gen-mt", seed, 36 if tier == "thorough" else 9, "FWU"], self.nontrivial, cmp)
        # a sender stuck for seconds in the middle of a frame (the peer reads nothing): the send loop must not
        # give up half-way, whatever the other threads and the other direction do meanwhile
        core.tie_run(stats, "stream", ["gen-duplex", "F", 8000 if tier == "thorough" else 3000], lambda c, t: True, cmp)

    def search(self, tier, seed):
        st = core.Stats()
        core.tie_run(st, "stream", ["gen-mt", seed + 1, 18, "FWU"], self.nontrivial, False)
        return st

    def reexecutable(self, case):
        return False


NET_TB = [KERNEL, TIE, "model of driver.rs / registry.rs written by hand (MioModel/Net.lean): user calls are atomic steps, process() is split at every lock release and callback",
          "adapter answers (pending, receive, accept, send status) are inputs of the model; the OS socket layer is the environment",
          "std::sync::RwLock: mutual exclusion of writers (register/deregister are atomic steps) (assumed)"]
NET_ASSUME = ["histories are recorded with the processor pumped on the calling thread (a sequence); races between threads are covered by the theorems (every interleaving of the model's atomic steps), not by the tie",
              "kernel: FIN/RST are reported to a non-blocking read; closing the last descriptor closes the socket", "loopback only"]
NET_RULE = ("cases = randomized scripted histories over network::split(): listen / connect (own listener, raw listener that "
            "accepts, stays silent or closes, dead port) / inbound raw peers (proper handshake, garbage bytes, gone at once) / "
            "peer writes, FIN, RST / send before, during and after establishment / remove (also from inside the callback on "
            "Connected, Accepted, Message) / is_ready / probes after the end; for Tcp, FramedTcp, Ws and Udp (incl. "
            "from_listener endpoints and datagrams above the maximum); the recorded history (calls with results + events in "
            "order) is re-executed on the model, which must produce the same results and accept every event; the direct "
            "oracle checks the per-endpoint lifecycle, the exactly-one end, the probes and the descriptor baseline. ")


class C03(Prop):
    id = "C03"
    module = "MioModel.Props.C03"
    bins = ["net", "node"]
    run_bin = "net"
    rule = NET_RULE + ("plus, for the three listener modes of the node layer (for_each, for_each_async, enqueue), `node early` cases: "
                       "peers connect / send / disconnect before and after the listener call and the callback's event sequence must "
                       "equal the action sequence. non-trivial = history with a refused connect, a disconnection or a send before "
                       "establishment (tags refused/disconnected/notavailable), or a node case with >= 3 cached events; distinct = by history")
    trusted_base = NET_TB
    assumptions = NET_ASSUME + ["connect_sync: the polling loop itself is three lines (network.rs:118-131); its two exits are the theorems about is_ready"]

    def nontrivial(self, case, tags):
        return any(t in tags for t in ("refused", "disconnected", "notavailable", "cached3"))

    def tie(self, stats, tier, seed):
        cmp = getattr(self, "compare", True)
        core.tie_run(stats, "net", ["gen", seed, 400 if tier == "thorough" else 48], self.nontrivial, cmp)
        core.tie_run(stats, "node", ["gen-early", seed + 7, 8 if tier == "thorough" else 3], self.nontrivial, cmp)

    def search(self, tier, seed):
        st = core.Stats()
        core.tie_run(st, "net", ["gen", seed + 1, 160], self.nontrivial, False)
        return st

    def reexecutable(self, case):
        return False


class C04(C03):
    id = "C04"
    module = "MioModel.Props.C04"
    rule = NET_RULE + ("plus remove races: 8 threads behind a barrier call remove() on each of 2x24 established endpoints "
                       "(Tcp, FramedTcp, Ws) whose peers are removed at the same time, so the peer's close races the removes; per "
                       "endpoint remove()=true plus Disconnected must be exactly one. non-trivial = history in which a "
                       "connection ends by Disconnected or by a successful remove (tags disconnected/removed); distinct = by history")

    def nontrivial(self, case, tags):
        return "disconnected" in tags or "removed" in tags

    def tie(self, stats, tier, seed):
        cmp = getattr(self, "compare", True)
        core.tie_run(stats, "net", ["gen-race", 64 if tier == "thorough" else 24], self.nontrivial, cmp)
        core.tie_run(stats, "net", ["gen", seed + 20, 400 if tier == "thorough" else 48], self.nontrivial, cmp)


class C18(C03):
    id = "C18"
    module = "MioModel.Props.C18"
    rule = NET_RULE + ("the descriptor count is read from /proc/self/fd before the node exists, with the idle node, after every resource "
                       "of the scenario has ended, and after the node is dropped. non-trivial = history with a refused connect, a "
                       "disconnection or a removal; distinct = by history")
    assumptions = NET_ASSUME + ["thread release (stopped nodes) is checked by the node harness of C09"]

    def nontrivial(self, case, tags):
        return any(t in tags for t in ("refused", "disconnected", "removed"))

    def tie(self, stats, tier, seed):
        cmp = getattr(self, "compare", True)
        core.tie_run(stats, "net", ["gen", seed + 40, 600 if tier == "thorough" else 60], self.nontrivial, cmp)
        # thread release under a persistent accept() error (descriptor table full, a connection waiting)
        core.tie_run(stats, "net", ["gen-emfile"], lambda c, t: True, cmp)
        # stopped nodes release their threads: every stop scenario, with signals and traffic still flowing
        core.tie_run(stats, "node", ["gen-stop"] + (["thorough"] if tier == "thorough" else []), lambda c, t: True, cmp)


class C13(Prop):
    id = "C13"
    module = "MioModel.Props.C13"
    bins = ["net", "stream", "udp"]
    run_bin = "stream"
    rule = ("cases = (a) payloads around each transport's declared maximum on an established node<->node connection, both "
            "directions: Udp 65506/65507/65508/70000, Ws 16 MiB+1 (inside the 16 MiB default frame limit of the WS library) and "
            "32 MiB+1 (thorough: 16 MiB-1, 16 MiB, 32 MiB-1, 32 MiB, 40 MiB), FramedTcp/Tcp 70000 (thorough 40 MiB); status, "
            "delivery and usability of the connection afterwards compared with the model; (b) scripted histories with sends in "
            "every resource state (pending, ready, removed, disconnected, never existed via from_listener) re-executed on the "
            "model. non-trivial = payload at or above a limit, or a send answered ResourceNotAvailable / MaxPacketSizeExceeded "
            "(tags at-limit/above/notavailable/toobig); distinct = by case line")
    trusted_base = NET_TB + ["tungstenite frame/message size configuration and the kernel's UDP datagram limit are the environment"]
    assumptions = NET_ASSUME

    def nontrivial(self, case, tags):
        return any(t in tags for t in ("at-limit", "above", "notavailable", "toobig"))

    def tie(self, stats, tier, seed):
        cmp = getattr(self, "compare", True)
        core.tie_run(stats, "stream", ["gen-sizes", tier], self.nontrivial, cmp)
        core.tie_run(stats, "net", ["gen", seed + 60, 300 if tier == "thorough" else 40], self.nontrivial, cmp)
        # UDP over IPv6: every size between the declared maximum and the kernel's IPv6 limit, four send paths
        core.tie_run(stats, "udp", ["gen-sweep", 65490, 65530, 1, 16, "v6"], lambda c, t: "over" in t or "max" in t, cmp)
        # the Udp corpus: exact maximum on every path, and the send after an ICMP bounce (ResourceNotFound, nothing sent)
        core.tie_run(stats, "udp", ["gen", seed + 61, 12], lambda c, t: "over" in t or "max" in t or "absent-peer" in t, cmp)
        # several threads on one FramedTcp endpoint with frames larger than the socket buffers: Sent means whole
        core.tie_run(stats, "stream", ["gen-mt", seed + 62, 3, "F"], lambda c, t: True, cmp)

    def search(self, tier, seed):
        st = core.Stats()
        core.tie_run(st, "stream", ["gen-sizes", "thorough"], self.nontrivial, False)
        return st

    def reexecutable(self, case):
        return case.startswith("stream size")


NODE_TB = [KERNEL, TIE, "model of node.rs written by hand (MioModel/Node.lean): every line of the two dispatch threads that touches the running flag, the callback mutex or the cache is one step",
           "std::sync::Mutex: mutual exclusion and release/acquire ordering (which is what makes the Relaxed `running` flag sequentially consistent for a stop() issued while the callback lock is held) (assumed)",
           "the driver plays each scenario on the model with one fair eager schedule; the theorems cover all schedules"]
NODE_ASSUME = ["the unsafe impl Send for the callback wrapper is sound given the lock: that is the theorem's content; the Rust memory model is not modelled",
               "bounded time = bounded own steps x SAMPLING_TIMEOUT; monitored with a 1.5-3 s bound", "tie samples schedules (real threads), weaker than the differential ties"]


class C12(Prop):
    id = "C12"
    module = "MioModel.Props.C12"
    bins = ["udp"]
    run_bin = "udp"
    rule = ("cases = scripted UDP worlds on loopback: 1-2 library listeners, 1-3 raw std::net::UdpSocket peers, 1-3 library "
            "sockets connected to a listener or a raw peer; 2-6 paced rounds of sends (connected -> peer, raw -> anybody, "
            "listener -> anybody through Endpoint::from_listener or through the endpoint reported in an earlier event), sizes "
            "0/1/2, <=64, around 1472, 8 KiB-32 KiB, max-2..max, above max; a fixed corpus (zero-length everywhere, exact "
            "maximum everywhere, three senders one listener with replies, connected-socket filtering, listener to listener) and "
            "a size sweep through four paths (stride 211 in the quick tier, every size 0..=max+1 in the thorough tier); plus the "
            "from_listener guard on ids of every transport and side; one world in three lives on IPv6 loopback (kernel limit 65527: "
            "sizes max+1..max+22 on every path, foreign datagrams above the declared maximum), with its own sweep of every size "
            "65480..65530. non-trivial = a receiver with at least two distinct "
            "senders, or a zero-length / maximum-size / reply case (tags multi-sender, zero, max, reply); distinct = by case line")
    trusted_base = [KERNEL, TIE, "model of adapters/udp.rs + the UDP paths of driver.rs + Endpoint::from_listener written by hand (MioModel/Udp.lean)",
                    "the kernel's datagram service on loopback is the model's environment: a datagram of at most 65507 bytes (IPv4) / "
                    "65527 bytes (IPv6) sent to a bound socket is queued whole with its source address unless the socket is "
                    "connected elsewhere; recv cuts to the reader's buffer; nothing is dropped while the receiver is polled between "
                    "bursts (paced)"]
    assumptions = ["loss under receive-buffer overflow, reordering between different senders, multicast and the "
                   "receive_broadcasts filter (accept_filtered) are outside the model; the WouldBlock retry loop of send_packet is "
                   "not modelled (termination is the OS's)",
                   "order is compared per (receiver, source) pair"]

    def nontrivial(self, case, tags):
        return any(t in tags.split(",") for t in ("multi-sender", "zero", "max", "reply"))

    def tie(self, stats, tier, seed):
        cmp = getattr(self, "compare", True)
        thorough = tier == "thorough"
        core.tie_run(stats, "udp", ["gen", seed, 400 if thorough else 60], self.nontrivial, cmp)
        core.tie_run(stats, "udp", ["gen-sweep", 0, 65508, 1 if thorough else 211, 16], self.nontrivial, cmp)
        # IPv6: the window between the declared maximum and the kernel's IPv6 limit, every size
        core.tie_run(stats, "udp", ["gen-sweep", 65480 if not thorough else 0, 65530, 1 if not thorough else 37, 16, "v6"], self.nontrivial, cmp)

    def search(self, tier, seed):
        st = core.Stats()
        core.tie_run(st, "udp", ["gen", seed + 1, 200], self.nontrivial, False)
        core.tie_run(st, "udp", ["gen-sweep", 0, 65508, 53, 16], self.nontrivial, False)
        return st


class C05(Prop):
    id = "C05"
    module = "MioModel.Props.C05"
    bins = ["node"]
    run_bin = "node"
    rule = ("cases = stress runs in the three listener modes (for_each, for_each_async, enqueue): three raw FramedTcp peers "
            "and a UDP peer sending continuously, three threads sending plain / priority / timed signals, callback duration "
            "0 / 5 us spin / 1 ms sleep; the callback flips a shared inside-flag on entry and exit and counts overlaps. "
            "non-trivial = both dispatch threads entered the callback at least 100 times in the run (tag both-threads); "
            "distinct = by mode and callback duration")
    trusted_base = NODE_TB
    assumptions = NODE_ASSUME

    def nontrivial(self, case, tags):
        return "both-threads" in tags

    def tie(self, stats, tier, seed):
        cmp = getattr(self, "compare", True)
        core.tie_run(stats, "node", ["gen-serial", 4 if tier == "thorough" else 1], self.nontrivial, cmp)

    def search(self, tier, seed):
        st = core.Stats()
        core.tie_run(st, "node", ["gen-serial", 3], self.nontrivial, False)
        return st


class C09(Prop):
    id = "C09"
    module = "MioModel.Props.C09"
    bins = ["node", "net"]
    run_bin = "node"
    rule = ("cases = for each listener mode: stop() before the listener call with 0/1/3 cached start-up events; stop() inside "
            "the callback of the i-th network event / i-th signal while peers and signals keep flowing; stop() inside a signal "
            "callback that sleeps 60 ms so that the network thread queues up on the callback lock; stop() inside the callback "
            "of the second of 5 replayed cached events; stop() from an unrelated thread; counted: invocations entered after the "
            "in-callback / before-start stop(), whether the listener returned within 1.5 s, is_running(). non-trivial = the "
            "callback was invoked at least once in the scenario (tag invoked) or stop came before the start; distinct = by scenario")
    trusted_base = NODE_TB
    assumptions = NODE_ASSUME

    def nontrivial(self, case, tags):
        return "invoked" in tags or "before" in tags

    def tie(self, stats, tier, seed):
        cmp = getattr(self, "compare", True)
        core.tie_run(stats, "node", ["gen-stop", tier], self.nontrivial, cmp)
        # the listener returns after stop() also when a listener's accept() keeps failing (descriptor table full)
        core.tie_run(stats, "net", ["gen-emfile"], lambda c, t: True, cmp)

    def search(self, tier, seed):
        st = core.Stats()
        core.tie_run(st, "node", ["gen-stop", "thorough"], self.nontrivial, False)
        return st


class C15(Prop):
    id = "C15"
    module = "MioModel.Props.C15"
    bins = ["node"]
    run_bin = "node"
    rule = ("cases = for each listener mode: raw FramedTcp peers connect, send numbered messages and disconnect (one action "
            "every 4 ms, so the production order is known) before the listener call, after a delay of 0/10/60/300 ms the "
            "listener starts (signals flowing), then more actions; the network events seen by the callback must equal the "
            "peers' action sequence exactly. non-trivial = at least 3 events cached before the listener call (tag cached3); "
            "distinct = by scenario parameters")
    trusted_base = NODE_TB
    assumptions = NODE_ASSUME + ["production order = the peers' action order because actions are 4 ms apart (assumed of the kernel/poll)"]

    def nontrivial(self, case, tags):
        return "cached3" in tags

    def tie(self, stats, tier, seed):
        cmp = getattr(self, "compare", True)
        core.tie_run(stats, "node", ["gen-early", seed, 12 if tier == "thorough" else 4], self.nontrivial, cmp)

    def search(self, tier, seed):
        st = core.Stats()
        core.tie_run(st, "node", ["gen-early", seed + 1, 8], self.nontrivial, False)
        return st


CONC_TB = [KERNEL, TIE, "model of events.rs written by hand (MioModel/EventQueueConc.lean): sender calls are single atomic enqueues, the receiver is split at every shared access",
           "crossbeam-channel: linearizable unbounded FIFO channels that never lose or invent an item; select! completes only on a ready operation and prefers ready operations over its timeout (assumed)",
           "the eager receiver schedule built by the driver is replayed through `step`, so it is a legal model execution"]
CONC_ASSUME = ["Instant::now() is monotone across threads", "send_with_timer is modelled as one atomic step (clock read + sequence number + enqueue)",
               "timing: logical grid with four disjoint phases (sender calls, timer deadlines, receiver calls, timeouts); runs that miss a slot are repeated; a late return that repeats in 6 consecutive runs is a failure"]


class C06(Prop):
    id = "C06"
    module = "MioModel.Props.C06"
    bins = ["vq"]
    run_bin = "vq"
    rule = ("cases = stress histories (2/4/8/16 sender threads behind a barrier, each a random mix of plain, priority "
            "and timed sends with equal durations across threads so that same-instant timers collide, some cancelled, "
            "sender handles dropped before delivery, one receiver cycling try_receive/receive_timeout) checked against the "
            "history predicate of the theorems (exactly once, per-sender FIFO, nothing invented); plus two-thread grid "
            "histories validated step by step against the model. non-trivial = stress history in which the returned "
            "order interleaves senders (tag interleaved) or a grid history in which a blocked call was woken (tag woken); "
            "distinct = by recorded trace")
    trusted_base = CONC_TB
    assumptions = CONC_ASSUME

    def nontrivial(self, case, tags):
        return "interleaved" in tags or "woken" in tags

    def tie(self, stats, tier, seed):
        cmp = getattr(self, "compare", True)
        th = tier == "thorough"
        core.tie_run(stats, "vq", ["gen-stress", seed, 24 if th else 8, 20000 if th else 3000], self.nontrivial, cmp)
        core.tie_run(stats, "vq", ["gen-clones", 600000 if th else 150000], self.nontrivial, cmp)
        core.tie_run(stats, "vq", ["gen-collide", 8, 60000 if th else 15000], self.nontrivial, cmp)
        core.tie_run(stats, "vq", ["gen-conc", seed, 1500 if th else 200], self.nontrivial, cmp)
        # a long fold of timer commands between the receiver's clock reading and its arming of the next expiry:
        # the timer that expires in between must still be returned by the blocked call
        core.tie_run(stats, "vq", ["gen-backlog"], self.nontrivial, cmp)
        # forced schedules at the sync point between the fold and the arming of the next expiry
        core.tie_run(stats, "vq", ["gen-race"], self.nontrivial, cmp)

    def search(self, tier, seed):
        st = core.Stats()
        core.tie_run(st, "vq", ["gen-stress", seed + 1, 12, 30000], self.nontrivial, False)
        return st


class C08(Prop):
    id = "C08"
    module = "MioModel.Props.C08"
    bins = ["vq"]
    run_bin = "vq"
    rule = ("cases = two-thread grid histories (a sender thread schedules timers with durations 1/5/9/13 units and far "
            "future, cancels some while the receiver is idle or blocked inside receive()/receive_timeout(); the receiver "
            "issues try_receive/receive_timeout/receive) validated against the small-step model, plus stress histories "
            "checking never-early and cancel-exactness on every timer, plus interleavings forced through the sync point "
            "events.ready_event.folded (receiver held after folding the commands while another thread cancels and the "
            "deadline passes) compared with the model's explicit schedule. non-trivial = history with a cancel (tag cancel) or "
            "a blocked call woken by a timer/command (tag woken), stress histories (tag interleaved); distinct = by trace")
    trusted_base = CONC_TB
    assumptions = CONC_ASSUME + ["fires_without_sender is exercised by the stress run (sender handles are dropped before delivery), not modelled"]

    def nontrivial(self, case, tags):
        return "cancel" in tags or "woken" in tags or "interleaved" in tags

    def tie(self, stats, tier, seed):
        cmp = getattr(self, "compare", True)
        th = tier == "thorough"
        core.tie_run(stats, "vq", ["gen-race"], self.nontrivial, cmp)
        core.tie_run(stats, "vq", ["gen-early", 2400 if th else 480], self.nontrivial, cmp)
        core.tie_run(stats, "vq", ["gen-conc", seed + 3, 4000 if th else 500], self.nontrivial, cmp)
        core.tie_run(stats, "vq", ["gen-stress", seed + 3, 12 if th else 4, 10000 if th else 2000], self.nontrivial, cmp)
        core.tie_run(stats, "vq", ["gen-clones", 300000 if th else 100000], self.nontrivial, cmp)
        core.tie_run(stats, "vq", ["gen-collide", 8, 10000], self.nontrivial, cmp)
        core.tie_run(stats, "vq", ["gen-backlog"], self.nontrivial, cmp)
        # cancels issued inside the last millisecond before the deadline (and of sub-millisecond timers)
        core.tie_run(stats, "vq", ["gen-latecancel", 1200 if th else 240], self.nontrivial, cmp)
        # durations the clock cannot represent: refused or pending for ever, never delivered
        core.tie_run(stats, "vq", ["gen-farfuture"], self.nontrivial, cmp)

    def search(self, tier, seed):
        st = core.Stats()
        core.tie_run(st, "vq", ["gen-conc", seed + 11, 2500], self.nontrivial, False)
        return st


class C16(Prop):
    id = "C16"
    module = "MioModel.Props.C16"
    bins = ["vq"]
    run_bin = "vq"
    rule = ("cases = two-thread grid histories: the receiver blocks in receive()/receive_timeout(d) on an empty queue or "
            "behind a longer timer; the sender thread sends each kind (plain, priority, timer shorter/longer than the "
            "pending ones, cancel) at later grid instants; the recorded result and return instant of every call are "
            "validated against the small-step model played eagerly. non-trivial = a blocked call woken by a send or a "
            "timer (tag woken) or timed out after waiting (tag waited); distinct = by trace")
    trusted_base = CONC_TB
    assumptions = CONC_ASSUME

    def nontrivial(self, case, tags):
        return "woken" in tags or "waited" in tags

    def tie(self, stats, tier, seed):
        cmp = getattr(self, "compare", True)
        core.tie_run(stats, "vq", ["gen-conc", seed + 5, 5000 if tier == "thorough" else 600], self.nontrivial, cmp)
        # forced through the sync point: a timer expires while the receiver sits between its expiry test and its sleep
        core.tie_run(stats, "vq", ["gen-race"], self.nontrivial, cmp)
        # the expiry wake-up and a cancel command ready together: None only after the whole timeout
        core.tie_run(stats, "vq", ["gen-expirerace", 4000 if tier == "thorough" else 1000], self.nontrivial, cmp)
        core.tie_run(stats, "vq", ["gen-deadlinerace", 2000 if tier == "thorough" else 300], self.nontrivial, cmp)
        # timed sends through different clones that fall on the same instant: each must wake the receiver
        core.tie_run(stats, "vq", ["gen-collide", 8, 40000 if tier == "thorough" else 10000], self.nontrivial, cmp)

    def search(self, tier, seed):
        st = core.Stats()
        core.tie_run(st, "vq", ["gen-conc", seed + 13, 2500], self.nontrivial, False)
        return st


class C14(Prop):
    id = "C14"
    module = "MioModel.Props.C14"
    bins = ["rid", "net", "udp"]
    run_bin = "rid"
    rule = ("cases = structured raw 64-bit values (single bits, complements, field boundaries, random widths) "
            "through ResourceId::from(raw) + accessors + Display and through the poll-token conversions; "
            "ResourceId::new on in-range and out-of-range fields (debug_assert = panic); generator runs from "
            "arbitrary counters incl. the 2^56 edge; plus one live-network row (#table) checking the transport "
            "table and that listen/connect on every transport hand out ids with that transport's adapter id, the "
            "right type and consecutive base values. non-trivial = raw value with bits in >= 2 of the 3 fields, "
            "or an edge case (tags guard/wrap/edge); distinct = by case line")
    trusted_base = [KERNEL, TIE, "hooks verif_new / verif_token_of / verif_id_of_token / ResourceIdGenerator re-export (feature verif-hooks, add-only wrappers around the private functions)",
                    "model of resource_id.rs / poll.rs token / loader.rs table written by hand (MioModel/ResourceId.lean)"]
    assumptions = ["usize is 64 bit", "fewer than 2^55 registrations per registry (beyond it the token shift drops a bit; stated in the theorems)",
                   "history-level parts of C14 (stale endpoints, event attribution) are proved on the network model M5"]

    def nontrivial(self, case, tags):
        if any(t in tags for t in ("guard", "wrap", "edge", "table")):
            return True
        w = case.split(" ")
        if len(w) >= 3 and w[1] in ("acc", "tok") and w[2].isdigit():
            raw = int(w[2])
            return sum(1 for f in (raw & 0x7f, raw & 0x80, raw >> 8) if f) >= 2
        return w[1] in ("mk", "gen") if len(w) > 1 else False

    def tie(self, stats, tier, seed):
        cmp = getattr(self, "compare", True)
        core.tie_run(stats, "rid", ["gen", seed, 300000 if tier == "thorough" else 20000], self.nontrivial, cmp)
        core.tie_run(stats, "net", ["gen", seed + 80, 200 if tier == "thorough" else 24], lambda c, t: "removed" in t or "disconnected" in t, cmp)
        # datagram events name the receiving socket and the sender's own address (several senders, a sender on
        # another loopback ip, both listener kinds)
        core.tie_run(stats, "udp", ["gen", seed + 81, 150 if tier == "thorough" else 20],
                     lambda c, t: "multi-sender" in t or "other-source-ip" in t, cmp)


PROPS = {p.id: p() for p in [C01, C02, C03, C04, C05, C06, C07, C08, C09, C10, C11, C12, C13, C14, C15, C16, C17, C18, C19]}
